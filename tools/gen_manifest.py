#!/usr/bin/env python3
"""Regenerates MANIFEST.json from the per-property table below (kept here so the manifest stays valid)."""
import json
import os
HERE = os.path.dirname(os.path.dirname(os.path.abspath(__file__)))
props = [json.loads(l) for l in open(os.path.join(HERE, 'properties.jsonl'))]

NOTE = ("Trusted: Lean 4.33 kernel, Mathlib v4.33, axioms propext/Classical.choice/Quot.sound (audited by #print axioms "
        "on every run; no native_decide/bv_decide/sorry/own axioms). The hand-written model is tied to /repo by the "
        "correspondence run of its executable definitions against the implementation (and, where listed, by the "
        "translator regenerating Lean definitions from the source). IEEE rounding, numpy/scipy/LAPACK/libm are modelled, "
        "not verified (DESIGN.md section 5).")

CLAIMS = {
 'C13': dict(
   text="Lean 4 theorems about the model `Ndt.dea3` over every linearly ordered field: exact recovery of L from L+a q^k "
        "outside the documented guard (tiny=0, and the exact perturbation for tiny>0); abserr>=0, abserr>=|result-e2| and "
        ">=|d1|+|d2| for all inputs; no zero denominator in the dividing branch; elementwise/symmetric list semantics. "
        "The elementwise body of dea3 is regenerated from extrapolation.py on every run (numpy-elementwise fragment of the translator: "
        "tuple and masked assignments, np.where, comparisons) and dea3_generated proves it equal to the model for every carrier; "
        "the generated definition at Float is compared bit for bit with numpy's dea3 on every run. Partial: rounding is "
        "explored (search with a first-order rounding envelope), not proved.",
   technique="Lean 4 proof over ordered fields on a definition regenerated from the source + bit-exact Float correspondence"),
 'C07': dict(
   text="Lean 4 theorems about the model of Richardson (rule = Lagrange basis coefficients of node 1 among the nodes "
        "rho^-(order+step c); call = correlation): weights sum to one and annihilate every modelled power for any field "
        "with distinct nodes; nodes proved distinct for real rho>1 and complex |rho|>1; a sequence L+sum a_c h^(k_c) is "
        "mapped to L in every slot; number of outputs = len - terms used >= 1; error estimates >= 0 for real and complex sequences and for every (negative, complex) steps (richErrShort_nonneg / richErr_nonneg_complex, on a model generic in the carrier and its absolute value); columns independent. "
        "Tie: exact-rational model vs float rule/call within C*eps*cond, Float model of _estimate_error bitwise. Partial: "
        "pinv rounding and ill-conditioning (rho near 1) are outside the model.",
   technique="Lean 4 proof (Lagrange coefficient lemma, any field / R / C) + exact-rational and bit-exact correspondence"),
 'C06': dict(
   text="The integer logic of LogRule (parity, tables step/offset/c_0, num_terms, rule_index, richardson_step, method_order, "
        "flip, names) is regenerated from finite_difference.py into Lean on every run; theorem rule_tables_consistent "
        "(all n>=1, order>=1, unbounded, methods central/forward/backward/complex) proves spacing = richardson_step, the "
        "selected row has exponent n, the first uncovered exponent is n+method_order, admissible parity, >=1 term; method_order_spec "
        "(the delivered order is the requested order rounded down to a multiple of the spacing of the error terms, at least one multiple: never "
        "capped, never a whole step short); "
        "fdRow_moments/fdRow_apply/fdRow_exact prove (any char-0 field, distinct nodes, proved distinct for real rho>1) that "
        "the rule extracts exactly the selected power of any expansion sum d_j h^(k_j) and leaves only powers "
        "n+method_order+q*richardson_step. Tie: translator + exhaustive grid of the translated functions vs the "
        "implementation + float weights vs exact closed form. Partial: pinv rounding / ill-conditioned systems are outside "
        "the model; the sign convention (flip vs difference function) is checked by the exact-arithmetic search, not yet "
        "by a theorem.",
   technique="Lean 4 proof on translator-generated definitions (omega/simp) + Lagrange-coefficient lemma; exact-rational correspondence"),
 'C15': dict(
   text="Lean 4 proof that Fornberg's recursion (model mirroring _fd_weights_all: running c1/c4, old-value reads, the j<=min(i,n) "
        "window, the j-1 wrap-around multiplied by j=0) keeps the invariant 'W[v][j] is the j-th derivative at x0 of the "
        "Lagrange basis polynomial of node v' (Mathlib Lagrange.basis, Leibniz for a linear factor), transferred to the "
        "table-level run the driver executes; consequently fdWeightsAll_exact: for pairwise distinct nodes in any order, any x0, "
        "n<len(x), row k applied to samples of any polynomial of degree <len(x) gives its exact k-th derivative; row 0 "
        "interpolates, rows k>=1 sum to 0, fd_weights is row n, the guard raises iff n>=len(x). Tie: the real kernel run on "
        "Fractions = Rat model exactly; public float API = Float model bit for bit. Partial: rounding (explored against exact "
        "rational weights with a conditioning-scaled bound).",
   technique="Lean 4 proof by loop invariant over Mathlib polynomials + exact (Fraction) and bit-exact (Float) correspondence"),
 'C16': dict(
   text="Lean 4 proof of fdDerivative_exact: on pairwise distinct nodes, len >= 2mm+2, m>=1 and samples of a polynomial of degree "
        "<= 2mm, the model of fd_derivative (program-order list of stores with Python's slice clamping and negative indices; "
        "last store wins) returns the exact n-th derivative at every grid point, interior and both boundaries, with output "
        "length = input length; fdStores_left/right/interior/cover prove which window and expansion node each output uses; "
        "fd_order_guard shows the inner guard cannot fire. Built on C15's theorem per window. Tie: the sequence of (window, node, "
        "n) passed to fd_weights is compared exactly with the model's stores; values on dyadic grids with a rounding bound. "
        "Partial: rounding / np.dot are not modelled.",
   technique="Lean 4 proof (index bookkeeping by omega + C15 per window) + exact correspondence of the store sequence"),
 'C14': dict(
   text="Lean 4 theorems: epsStep_diag / epsRun_diag / epsalg_returns_even_order prove that EpsAlg's in-place downward sweep "
        "(model mirroring the loop with aux1/aux2 and the 1e-60 guard) holds after n terms exactly the anti-diagonal of Wynn's "
        "table and returns eps_{n-1-(n-1)%2}^{((n-1)%2)}, for every sequence with no vanishing difference and every length; "
        "epsalg_one_transient proves L + a q^k is recovered from three terms with no zero denominator; "
        "dea_abserr_floor_every_call proves abserr >= 5 eps |result| on every successful Dea call (after the two fix: commits). "
        "Tie: the Float models of EpsAlg and of Dea (checked array accesses, numpy slice semantics, res3la view, table shift) "
        "reproduce the implementation bit for bit including _n, _nres, the final table and the exception outcome. dea_total / deaCall_ok "
        "(Ndt/Proofs/DeaTotal.lean, any carrier incl. the Float instance) prove that Dea is total: the invariant (table size limexp+5, "
        "_n <= limexp-1) holds initially and after every call, and under it every index of _dea, _shift_table and _update_res3la is in "
        "range and every slice assignment has matching lengths, for every limexp >= 3 and every sequence of any length and any values. "
        "Partial: k>1 transients from 2k+1 terms (Wynn's identity) is validated by exact-rational runs only.",
   technique="Lean 4 proof by loop invariant (in-place sweep = Wynn table) + bit-exact Float correspondence incl. state"),
 'C10': dict(
   text="The integer logic of the step generators (_num_step_divisor, min_num_steps, num_steps, default ratio, constructor defaults, "
        "exponent ranges of the basic generators) is regenerated from the source into Lean on every run. Theorems: "
        "divisor_eq_richardson_step (the two separately maintained tables agree for every method, n, order); "
        "default_count_suffices (for every method, n>=1, order and any generator that checks its count or has none, rule size - 1 < "
        "num_steps, so the _apply guard cannot fire for a valid configuration); num_steps_logic; documented default ratios; "
        "stepsMax/Min_closed_form, steps_geometric (steps[k+1]*rho = steps[k], nothing dropped for non-zero base/ratio, a zero base "
        "dropped entirely; emitStepsVec_zero_component / emitStepsVec_eq: a per-variable base step with one vanishing entry leaves no step, nothing is dropped otherwise) over ordered fields. Tie: translator + exact grid of the generated logic vs the implementation, emitted "
        "lists vs the Rat model (<= 4 ulp, libm pow), rule size vs step count on a grid. Partial: EPS**(1/scale), log(1.718+|x|), "
        "round(16/log rho) are transcendental inputs of the model.",
   technique="Lean 4 proof on translator-generated definitions + exact/ulp correspondence of counts and sequences"),
 'C11': dict(
   text="Every _assert(cond, msg) guarding the public API is regenerated from the source as a Lean predicate (Gen/Guards.lean); the "
        "call-path model (which guard lies on which path of Derivative/Gradient/Jacobian/Hessdiag/Hessian.__call__, directionaldiff, "
        "Residue.__init__, CStepGenerator) is hand-written. Theorems, unbounded in their integers: complex_misuse_raises (all five "
        "classes, complex/multicomplex, complex x or complex-valued f => ValueError), multicomplex_high_order_raises (n>2), "
        "too_few_steps_raises, no_steps_raises (zero generated steps, every class; with emitStepsVec_zero_component also for a per-variable base step with one vanishing entry, the generator loop being pinned by the translator), wrong_size_raises, directionaldiff/residue/path guards, fd_weights/fd_derivative guards (C15/C16), and "
        "valid_call_returns (no false rejection). Outcome is a sum type, so ValueError excludes a numeric result. Tie: the complete "
        "finite outcome table class x method x flags x dimension x n x order and a malformed stream, executed on the real classes.",
   technique="Lean 4 decision-logic theorems on translator-generated guards + exhaustive outcome-table correspondence"),
 'C12': dict(
   text="The leaf methods of Bicomplex (+, -, neg, *, conjugate, sin, cos, sinh, cosh, exp, expm1, first component of log1p, mod_c) "
        "are regenerated from multicomplex.py as Lean terms over C on every run. Theorems on those generated formulas: the "
        "idempotent components phi1 = z1 - i z2, phi2 = z1 + i z2 are injective and commute with + - neg * (ring homomorphism) and "
        "with exp, sin, cos, sinh, cosh, expm1 (phi_k(F z) = f(phi_k z), i.e. F is the holomorphic extension), conjugation swaps "
        "them, log1p's first component is (log phi1(1+z) + log phi2(1+z))/2 where the arguments do not wrap, every function reduces "
        "to the complex one for z2 = 0, and for every real polynomial p: imag12 of p(x+ih+jh) = (p(x) - Re p(x+2ih))/2 and imag1 of "
        "p(x+ih) = Im p(x+ih) exactly (what the multicomplex method extracts). Tie: translator; ring operations also generated as "
        "computable code and compared exactly on Gaussian dyadics; _pow_integer's loop is translated and proved to reduce to the ring power; "
        "the small arguments of the (repaired) arctan / arcsin are proved algebraically equal to the cancelling differences in any field and "
        "the two splitting identities are proved on the real line. Partial: composites (division, real pow, sqrt, tan..csch, inverse "
        "functions off the real axis, log's arg_c) are not theorems: they are validated against the independent idempotent oracle by the search.",
   technique="Lean 4 proof (Mathlib complex trig identities) on translator-generated formulas + exact ring correspondence"),
 'C01': dict(
   text="Flagship theorem derivative_exact_on_polynomials (Lean 4, any ordered field): for central/forward/backward, every n>=1, "
        "order>=1, real ratio >1, non-zero base step, any number of steps and Richardson terms, and every polynomial of degree "
        "< n + method_order, every candidate of every stage of the modelled pipeline (generated name logic -> difference quotient -> "
        "generated parity tables -> rule = Lagrange row, with the flip sign -> division by h^n -> Richardson -> dea3 -> per-column "
        "selection) equals n! a_n = f^(n)(x), hence so does the returned value; zero_order_is_f for n = 0. Built from the Taylor "
        "expansions of the four real-step quotients, fdRow_apply_k, C06, C07, C08, C13. Tie: translator (LogRule), exact "
        "correspondence of difference-function names and quotients, the linear segment of the real Derivative against the exact "
        "model on dyadic polynomials (rounding bound), the non-linear tail bit for bit (C08). "
        "derivative_exact_on_polynomials_complex proves the same for method='complex' over the reals: the five complex-step quotients "
        "(model generic in the complex carrier: C with _SQRT_J any square root of I in the theorem, Q(zeta_8) in the exact correspondence) "
        "are expanded on real polynomials, and the generated name logic, parity rows 1/3/4/5/6, constants c_0 and the sign flip "
        "n%8 in {3,4,5,6} are shown to fit them for every n and order. derivative_exact_on_polynomials_multicomplex: for n = 1, 2 the "
        "quotient formed with the generated Bicomplex + and * is h^n p^(n)(x) exactly for polynomials of degree <= n + 1, and the "
        "pipeline returns p^(n)(x). Partial: rounding and the truncation error of non-polynomial f are explored by the search "
        "(random expression programs vs a Taylor-series oracle, per-(method,n) envelope), not proved.",
   technique="Lean 4 proof of polynomial exactness of the whole pipeline + exact/bit-exact correspondence + oracle search"),
 'C02': dict(
   text="Lean 4 theorems: every reported error estimate is >= 0 on both paths of _extrapolate (tailStage_err_nonneg, from C07/C13 and the "
        "outlier penalty); the record's value, error, final step and index are read at one row per element, that row minimises the "
        "penalised error and is the middle one of ties (argMinRow_spec, bestEstimate_columnwise, chosenRow_valid); final_step is an entry "
        "of the generated step table; f_value = f(x) and one entry per element (info_consistent); under a single geometric residual the "
        "Richardson estimate is >= fact*(1-q) times the true error (richErr_dominates_geometric). Tie: the selection/tail model "
        "reproduces _get_best_estimate and the public full_output record bit for bit (incl. numpy's percentile). Partial: the "
        "statistical honesty of the estimate for general f is explored (|err| <= 1000*estimate + floor*scale against the Taylor oracle), "
        "not proved.",
   technique="Lean 4 proof (non-negativity, argmin, same-row record) + bit-exact correspondence + oracle search"),
 'C08': dict(
   text="Lean 4 theorems about the flat row-major bookkeeping of the selection stage: flat_gather ((ravel M)[r*ncols+c] = M[r][c]); "
        "bestEstimate_columnwise / chosenRow_single / bestEstimate_depends_on_column: value, error, step and index of element c are read "
        "at one row of column c, that row depends on column c alone, equals what the one-column table gives, and two tables agreeing on "
        "column c give the same result; the Wynn stage combines cells of one column only; lengths = ncols; args_forwarded. Tie: "
        "_get_best_estimate on tables with ties, NaN and all-NaN columns bit for bit; public Derivative on arrays of 0..3 axes: the tail "
        "model on the captured Richardson outputs reproduces value, error_estimate, final_step, index bit for bit. argMinRow_skips_nan / "
        "bestEstimate_err_not_nan (any carrier with a NaN, from the two IEEE comparison facts as hypotheses, shown satisfiable on the carrier "
        "NanRat): the selected row is a row of the table whose penalised error is not NaN whenever the column has one, so the reported "
        "estimate of that element is not NaN. Partial: the quartile arithmetic on NaN-containing columns is validated by the Float runs "
        "only; numpy axis semantics are modelled.",
   technique="Lean 4 proof of index bookkeeping / column-independence + bit-exact Float correspondence"),
 'C05': dict(
   text="Lean model of the argument lists of every difference function of the four classes (Derivative, Jacobian/Gradient, Hessdiag, Hessian; "
        "all methods incl. the sqrt(i) rules, central2, Ridout eq. 10, bicomplex), written with the code's float operations. Theorems for "
        "every x, positive step and dimension: forward never below x / backward never above (scalar, Hessdiag, Hessian in every "
        "coordinate); central in pairs symmetric about x; complex (first-derivative rule) and multicomplex keep the real part exactly x; "
        "real-step points within 1 (2 for central2) steps; Jacobian/Hessdiag change exactly one coordinate, Hessian at most two, all "
        "valid indices; the scalar quotients depend on f only through the listed points; imaginary_only_rule_selected: on the generated name "
        "dispatch, complex with n=1 and order<4 selects the plain rule and multicomplex (n=1,2) its two rules, whose points keep Re = x. Tie: every argument passed to the user function "
        "by the real classes is recorded and the multiset equals the Float model's list bit for bit (all classes x methods x n<=6 x order<=8 "
        "x dim<=5 x step generators), plus the number of evaluations at x itself.",
   technique="Lean 4 proof of admissibility of the modelled point lists + bit-exact correspondence of recorded arguments"),
 'C03': dict(
   text="Lean 4 theorems: jacobian_layout2 / jacobian_layout3 (for every n, m, k the flat position the transpose+ravel of _vstack gives to the "
        "quotient of f_i (f[i,l]) with respect to x_j is i*n+j ((i*n+j)*k+l), i.e. [i,j] ([i,j,l]) after the reshape; the step stored there is "
        "h[j], the step of the differentiated coordinate); result shapes (m,n), (m,n,k), (1,n), Gradient (n,) / 0-d; jacobian_affine_exact: "
        "entry (i,j) of the Jacobian of an affine map is the n=1 derivative pipeline on a degree-1 polynomial, so every candidate equals "
        "A_ij for central/forward/backward (corollary of C01's theorem). Tie: layout engine (slopes that encode (j,i,l)) on the real "
        "Jacobian for all shapes incl. degenerate ones; search on affine / nonlinear maps, Gradient = Jacobian row, directionaldiff = "
        "Gradient.v/|v|. Partial: complex/multicomplex exactness on affine maps and rounding are explored, not proved.",
   technique="Lean 4 proof of tensor layout (index arithmetic) + corollary of the pipeline exactness theorem; layout correspondence"),
 'C04': dict(
   text="Lean 4 theorems: hessian_fdel_symmetric / hessFlat_symmetric (mirrored fill: entry (i,j) = entry (j,i) at every step); "
        "bestEstimate_equal_columns (columns with identical data give identical results, hence exact symmetry of the returned matrix); "
        "hessForward/Central/Central2_quadratic(+_diag): for every f that is quadratic along the coordinate pair, every step h, every n, the "
        "three real-step formulas (Ridout eq. 7, 9, 8) return the exact second derivative; quadratic_form_along: c + g.x + x'Qx/2 with "
        "symmetric Q satisfies that hypothesis for every n; hessian_constant_table (all later stages return Q[i][j]); hessdiag_exact "
        "(Hessdiag = n=2 pipeline on the line function, exact below 2 + method_order). hessComplex_quadratic (Ridout eq. 10 over C) and "
        "hessMulticomplex_quadratic (imag12 of a polynomial evaluated with the generated Bicomplex + and *, via the idempotent components) "
        "give the same exactness for the complex-step and bicomplex formulas. hessian_cells_generated / hessian_complex_cell_generated: the cell "
        "expressions regenerated from the loop bodies of HessianDifferenceFunctions on every run are definitionally the modelled cells. "
        "Tie: translator; all six difference functions on dyadic polynomials = "
        "the exact model (Rat, Gaussian rationals, generated Bicomplex ring over Gaussian rationals); engine hess.screen: the "
        "implementation's outlier screen on a (steps x entries) table with NaN rows = the same screen column by column. Partial: rounding; non-quadratic f "
        "(search).",
   technique="Lean 4 proof (symmetry by construction, exactness on quadratics by ring identities) + exact correspondence on dyadic data"),
 'C09': dict(
   text="Lean 4 state-machine model of what persists between calls: the global rule cache (association list, only write = (key, compute key)), "
        "step generators (immutable options + _state overwritten at the start of every call), object configurations; operations construct / "
        "call / set n, order, method / share generator / clear cache. Theorems: lookupOrCompute_correct and reachable_inv (cache invariant in "
        "every reachable state), call_is_pure and history_independent (after ANY finite operation sequence a call returns the pure function of "
        "(current configuration, generator options, point): refinement to a one-line spec), interleaved_lookup_correct (a thread whose cache read "
        "and write are separated by arbitrary writes of other threads still obtains compute key and leaves a correct cache), "
        "set_restore_identity. Tie: random operation sequences on the real library; sorted(FD_RULES) and the generator _state after every "
        "operation equal the model's trace (keys computed with the generated LogRule logic). Search: every call result bit for bit against a "
        "separate interpreter with empty cache and new objects (also histories in which one user-created step generator - default or explicit scale / "
        "base step, scalar or array-valued - serves several Derivative / Hessdiag objects of different method, n, order); the caller's base_step array "
        "is re-examined; 16 threads on disjoint objects vs sequential. Partial: GIL-granularity model of "
        "threads; numpy/LAPACK internals outside.",
   technique="Lean 4 invariant + refinement proof over all operation sequences / interleavings + exact trace correspondence"),
 'C18': dict(
   text="Lean 4 theorems: limit_exact_on_polynomials (any field; if f(z0+h) = L + sum_{k<=order+1} a_k h^k is sampled at h0*rho^-t with at least "
        "order+2 samples and distinct Richardson nodes - proved for real rho>1 and complex |rho|>1, i.e. radial and spiral paths, h0 of either "
        "sign, real or complex z0 - every extrapolant of Limit's Richardson stage (step 1, order 1, order+1 terms) equals L); residue_fun "
        "(fun(z0+dz)*dz^p = g(z0+dz) for f = g/(z-z0)^p, dz != 0) and residue_exact (default order p+2, g of degree <= p+3 -> g(z0)); "
        "limit_keeps_finite_values / callLim_fills_in_order / callLim_all_some (only NaN entries are replaced, in order, finite values are "
        "returned unchanged). Tie: the sequence and signed steps the real Limit hands to Richardson, its configuration and its output against "
        "the exact Gaussian-rational model on polynomial data; the NaN-mask model on arrays mixing singular and regular points. Partial: "
        "truncation for non-polynomial kernels, rounding, and the selection on complex data are explored by the search (g x kernels x paths).",
   technique="Lean 4 proof (corollaries of the Richardson theorem, list frame lemma) + exact-rational correspondence + oracle search"),
 'C17': dict(
   text="Lean 4 theorems for the parts of the FFT Taylor module that are logic: num_coefficients (for every n < 193 the number of coefficients "
        "computed is in {8,...,256} and >= n+1; n >= 193 raises); dft_aliasing (for a polynomial and a primitive m-th root of unity, the k-th "
        "DFT coefficient of the samples on a circle of radius r is the sum of a_l r^l over l = k mod m - the identity the method rests on; "
        "Mathlib IsPrimitiveRoot, geom_sum); extrapolate_removes_two_terms (if bs_t = a + beta r_t^m + gamma r_t^2m the two Richardson passes of "
        "_extrapolate return a in every entry); failed_iff_cap (failed is set exactly when no iteration reported convergence, and then all "
        "max_iter iterations ran); radStep_converged_iff / radStep_bracket_mono / radRun_after_bracket (the bookkeeping of the radius search "
        "as a state machine over what _check_fft and _poor_convergence report: once the radius is bracketed exactly num_extrap further "
        "circles are computed). Tie: _num_taylor_coefficients exhaustively for n = 1..199, _extrapolate on dyadic data vs the Rat model, the "
        "iteration loop replayed from the recorded convergence flags, the radius-search state replayed from the intercepted outputs of "
        "_check_fft / _poor_convergence (exact). Partial: FFT rounding, the quality of the heuristic radius search and the "
        "accuracy-vs-estimate claim are explored by the search against closed-form series (one known finding recorded).",
   technique="Lean 4 proof (roots of unity / geometric sums, Richardson algebra, loop invariant) + exact correspondence + oracle search"),
 'C19': dict(
   text="Mostly a property of an external library (scipy.optimize._numdiff.approx_derivative), so the claim is partial by nature. Proved in "
        "Lean 4 on our side: method_map_total (the method table, regenerated from nd_scipy.py on every run: central->3-point, forward->2-point, "
        "complex->cs, backward silently ->2-point, anything else KeyError), forwarding (step, bounds, extra arguments reach the external call "
        "unchanged), cs_affine_exact (under scipy's documented 'cs' contract Im f(x+ih e_j)/h the entry (i,j) of an affine map is exactly A_ij for "
        "every h != 0, every n), gradient_squeeze_shape. Tie: the options actually handed to approx_derivative are intercepted and compared "
        "exactly. Search on the real scipy: affine / nonlinear maps, shapes, forwarded arguments, every evaluation point inside the box.",
   technique="Lean 4 proof of the wrapper logic on generated code + interception of the external call; search on the real scipy"),
}

checks = []
for p in props:
    pid = p['id']
    if pid in CLAIMS:
        c = CLAIMS[pid]
        checks.append({
            'property_id': pid,
            'quick_cmd': './check %s --tier quick' % pid,
            'thorough_cmd': './check %s --tier thorough' % pid,
            'evidence_file': 'evidence/%s.json' % pid,
            'replay_cmd_template': './check %s --replay {path}' % pid,
            'engine': 'lean-ndt',
            'level_claimed': {'category': c.get('category', 'proof'), 'text': c['text'],
                              'design_ref': 'DESIGN.md section 6, ' + pid},
            'level_note': c.get('note', NOTE),
            'technique': c['technique'],
        })
NA = {}
manifest = {
    'version': 1,
    'setup_cmd': './setup.sh',
    'hooks': {
        'guard': 'NUMDIFFTOOLS_VERIF',
        'enable': 'no source hooks: the harness observes the implementation in-process from outside (wrapping the user '
                  'callable, replacing module attributes at run time); the checks set NUMDIFFTOOLS_VERIF=1 but nothing in '
                  '/repo reads it',
        'baseline_off_cmd': 'cd /repo && /venv/bin/python -m pytest -ra -q -p no:cacheprovider --timeout=900 '
                            '--continue-on-collection-errors',
        'source_commits': [],
        'add_only': True,
    },
    'engines': [
        {'name': 'lean-ndt', 'path': 'lean', 'serves_properties': sorted(CLAIMS),
         'kind_free_text': 'Lean 4 project: executable models (core only), line-protocol driver, property theorems '
                           '(Mathlib modules one by one)'},
        {'name': 'harness', 'path': 'harness', 'serves_properties': sorted(CLAIMS),
         'kind_free_text': 'Python correspondence engines (implementation vs Lean model driver) and failing-input '
                           'searches with independent oracles'},
        {'name': 'translator', 'path': 'translator', 'serves_properties': [],
         'kind_free_text': 'Python ast -> Lean translator for expression-level code (regenerated on every run)'},
    ],
    'checks': checks,
    'not_applicable': [{'property_id': p['id'],
                        'reason': NA.get(p['id'], 'check not built yet (in progress; planned per DESIGN.md section 6)')}
                       for p in props if p['id'] not in CLAIMS],
    'notes': 'see DESIGN.md; ./check <ID> --tier quick|thorough; known findings in known_findings.json',
}
json.dump(manifest, open(os.path.join(HERE, 'MANIFEST.json'), 'w'), indent=1)
print('MANIFEST.json: %d checks, %d not claimed' % (len(checks), len(manifest['not_applicable'])))
