#!/bin/bash
# run every claimed check (quick by default) on the current /repo and validate the evidence files
cd "$(dirname "$0")/.."
tier=${1:-quick}
ids=$(python3 -c "import json;print(' '.join(c['property_id'] for c in json.load(open('MANIFEST.json'))['checks']))")
rc=0
for id in $ids; do
  ./check $id --tier $tier | grep -v "^  " | tail -3
  [ ${PIPESTATUS[0]} -ne 0 ] && rc=1
done
python3-vt - <<'PY'
import json, jsonschema, glob
m = json.load(open('MANIFEST.json'))
jsonschema.validate(m, json.load(open('/root/.vp/MANIFEST.schema.json')))
es = json.load(open('/root/.vp/EVIDENCE.schema.json'))
for c in m['checks']:
    e = json.load(open(c['evidence_file']))
    jsonschema.validate(e, es)
    cov = e['coverage']
    assert cov['obligations'] == cov['discharged'], (c['property_id'], cov['obligations'], cov['discharged'])
    assert e.get('violations', 0) == 0, c['property_id']
print('manifest and %d evidence files valid' % len(m['checks']))
PY
exit $rc
