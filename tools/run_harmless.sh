#!/bin/bash
cd "$(dirname "$0")/.."
ids="C01 C02 C03 C04 C05 C06 C07 C08 C09 C10 C11 C12 C13 C14 C15 C16 C17 C18 C19"
for k in 01 02 03 04 05 06 07 08 09 10 11 12; do
  git -C /repo apply $(pwd)/tools/harmless/R$k.diff || { echo "R$k does not apply"; continue; }
  res=""
  for id in $ids; do
    out=$(VERIF_EVIDENCE_DIR=/tmp/ev ./check $id 2>&1); rc=$?
    if [ $rc -ne 0 ]; then res="$res $id=$rc"; echo "$out" | grep -m3 "broken:\|first violation\|first mismatch\|INFRA" | cut -c1-260 | sed "s/^/    [R$k $id] /"; fi
  done
  git -C /repo checkout -- .
  echo "R$k: non-zero exits:${res:- none}"
done
