#!/venv/bin/python
"""usage: run_baseline.py <repo-dir>  — runs the pinned test suite in <repo-dir> and reports whether the 104 baseline tests still pass"""
import json, subprocess, sys, os, xml.etree.ElementTree as ET
repo = os.path.abspath(sys.argv[1])
out = os.path.join(repo, '.baseline_junit.xml')
subprocess.run('cd %s && /venv/bin/python -m pytest -ra -q -p no:cacheprovider --timeout=900 --continue-on-collection-errors --junitxml=%s' % (repo, out),
               shell=True, stdout=subprocess.DEVNULL, stderr=subprocess.DEVNULL)
base = json.load(open('/root/.vp/BASELINE.json'))
passed = set()
for tc in ET.parse(out).getroot().iter('testcase'):
    if not any(ch.tag in ('failure', 'error', 'skipped') for ch in tc):
        passed.add('%s::%s' % (tc.get('classname'), tc.get('name')))
os.remove(out)
want = set(base['stable_pass'])
missing = sorted(want - passed)
print('baseline: %d expected, %d of them pass now' % (len(want), len(want & passed)))
for m in missing:
    print('  NOT PASSING:', m)
sys.exit(1 if missing else 0)
